import PolytuneModel.Proto.Circuit
import PolytuneModel.Prim.Bincode
/-! Executable model of the online phase of `protocol.rs` (garble, input_processing, evaluate, output) for ALL parties at once,
    from the values the real parties drew (Δ, random shares, authenticated AND shares, wire labels — observed through taps).
    It produces, byte for byte, every online-phase message and every garbled row plaintext. Import-free. -/
namespace PolytuneModel.Online
open PolytuneModel.Bincode

structure ShareL where
  bit  : Bool
  macs : Array Nat
  keys : Array Nat
deriving Repr, Inhabited

def zero (n : Nat) : ShareL := ⟨false, Array.replicate n 0, Array.replicate n 0⟩
def xorA (a b : Array Nat) : Array Nat := (Array.range a.size).map fun i => a.getD i 0 ^^^ b.getD i 0
def ShareL.xor (a b : ShareL) : ShareL := ⟨a.bit != b.bit, xorA a.macs b.macs, xorA a.keys b.keys⟩
def ShareL.cond (c : Bool) (a : ShareL) (n : Nat) : ShareL := if c then a else zero n
def xorKeys (s : ShareL) : Nat := s.keys.foldl (· ^^^ ·) 0
def sc (b : Bool) (d : Nat) : Nat := if b then d else 0

structure Taps where
  n       : Nat
  delta   : Array Nat                    -- per party
  rnd     : Array (Array ShareL)         -- per party: k-th random share (Input/AND instructions in order)
  ab      : Array (Array ShareL)         -- per party: a-th authenticated AND share
  inLab   : Array (Array Nat)            -- per party: zero-labels of the Input instructions (garblers only)
  gateLab : Array (Array Nat)            -- per party: zero-labels of the AND gates (garblers only)
deriving Repr, Inhabited

structure Row where
  garbler : Nat
  w       : Nat        -- instruction index (nonce)
  i       : Nat        -- row 0..3
  keyX    : Nat
  keyY    : Nat
  plain   : Bytes
deriving Repr

structure Walk where
  sh   : Array (Array ShareL)      -- party → register → share
  lab  : Array (Array Nat)         -- party → register → zero label
  val  : Array Bool                -- evaluator's masked values
  lev  : Array (Array Nat)         -- register → party → evaluator's active label
  masked : Array (Option Bool)     -- register → masked input (input registers only)
  k : Nat
  a : Nat
  nIn : Nat
  rows : Array Row

def encRow (bit : Bool) (macs : Array Nat) (label : Nat) : Bytes := encBool bit ++ encVec encU128 macs.toList ++ encU128 label

/-- one instruction, all parties. `e` = evaluator, `w` = instruction index. -/
def stepAll (t : Taps) (e : Nat) (x : Nat → Nat → Bool) (s : Walk) (w : Nat) (inst : Inst) : Walk :=
  let n := t.n
  let shOf (p r : Nat) : ShareL := (s.sh.getD p #[]).getD r (zero n)
  let labOf (p r : Nat) : Nat := (s.lab.getD p #[]).getD r 0
  let setSh (f : Nat → ShareL) : Array (Array ShareL) := (Array.range n).map fun p => (s.sh.getD p #[]).setIfInBounds inst.out (f p)
  let setLab (f : Nat → Nat) : Array (Array Nat) := (Array.range n).map fun p => (s.lab.getD p #[]).setIfInBounds inst.out (f p)
  match inst.op with
  | .input q idx =>
    let share (p : Nat) := (t.rnd.getD p #[]).getD s.k (zero n)
    let m := (Array.range n).foldl (fun acc p => acc != (share p).bit) (x q idx)
    let il (p : Nat) := (t.inLab.getD p #[]).getD s.nIn 0
    { s with sh := setSh share, lab := setLab il, val := s.val.setIfInBounds inst.out m,
             lev := s.lev.setIfInBounds inst.out ((Array.range n).map fun p => il p ^^^ sc m (t.delta.getD p 0)),
             masked := s.masked.setIfInBounds inst.out (some m), k := s.k + 1, nIn := s.nIn + 1 }
  | .xor a b =>
    { s with sh := setSh (fun p => (shOf p a).xor (shOf p b)), lab := setLab (fun p => labOf p a ^^^ labOf p b),
             val := s.val.setIfInBounds inst.out (s.val.getD a false != s.val.getD b false),
             lev := s.lev.setIfInBounds inst.out (xorA (s.lev.getD a #[]) (s.lev.getD b #[])) }
  | .not a =>
    { s with sh := setSh (fun p => shOf p a), lab := setLab (fun p => labOf p a ^^^ t.delta.getD p 0),
             val := s.val.setIfInBounds inst.out (!s.val.getD a false), lev := s.lev.setIfInBounds inst.out (s.lev.getD a #[]) }
  | .and a b =>
    let rowShare (p i : Nat) : ShareL :=
      let base := ((t.ab.getD p #[]).getD s.a (zero n)).xor ((t.rnd.getD p #[]).getD s.k (zero n))
      let r := (base.xor ((shOf p a).cond (i % 2 == 1) n)).xor ((shOf p b).cond (i / 2 == 1) n)
      if p == e then { r with bit := r.bit != (i == 3) }
      else if i == 3 then { r with keys := r.keys.setIfInBounds e (r.keys.getD e 0 ^^^ t.delta.getD p 0) } else r
    let gl (p : Nat) := (t.gateLab.getD p #[]).getD s.a 0
    let rowLabel (p i : Nat) : Nat := let r := rowShare p i; gl p ^^^ xorKeys r ^^^ sc r.bit (t.delta.getD p 0)
    let newRows : Array Row := ((Array.range n).filter (· != e)).flatMap fun p =>
      (Array.range 4).map fun i =>
        let r := rowShare p i
        ⟨p, w, i, labOf p a ^^^ sc (i / 2 == 1) (t.delta.getD p 0), labOf p b ^^^ sc (i % 2 == 1) (t.delta.getD p 0), encRow r.bit r.macs (rowLabel p i)⟩
    -- evaluation
    let i := 2 * (if s.val.getD a false then 1 else 0) + (if s.val.getD b false then 1 else 0)
    let z := (Array.range n).foldl (fun acc p => acc != (rowShare p i).bit) false
    let lev := (Array.range n).map fun p =>
      if p == e then 0 else (Array.range n).foldl (fun acc j => if j == p then acc else acc ^^^ (rowShare j i).macs.getD p 0) (rowLabel p i)
    { s with sh := setSh (fun p => (t.rnd.getD p #[]).getD s.k (zero n)), lab := setLab gl,
             val := s.val.setIfInBounds inst.out z, lev := s.lev.setIfInBounds inst.out lev,
             k := s.k + 1, a := s.a + 1, rows := s.rows ++ newRows }

def walk (t : Taps) (c : Circuit) (e : Nat) (x : Nat → Nat → Bool) : Walk :=
  let n := t.n; let m := c.maxReg
  let init : Walk := ⟨Array.replicate n (Array.replicate m (zero n)), Array.replicate n (Array.replicate m 0), Array.replicate m false,
                      Array.replicate m (Array.replicate n 0), Array.replicate m none, 0, 0, 0, #[]⟩
  (c.insts.zipIdx.foldl (fun s (inst, w) => stepAll t e x s w inst) init)

def optList {α} (m : Nat) (f : Nat → Option α) : List (Option α) := (List.range m).map f

structure Out where
  wireShares  : List (Nat × Nat × Bytes)     -- (from, to, bytes)
  maskedIn    : List (Nat × Bytes)           -- (from, bytes) — same bytes to every peer
  labels      : List (Nat × Bytes)           -- (garbler, bytes) to the evaluator
  outShares   : List (Nat × Nat × Bytes)     -- (from, to ∈ p_out, bytes)
  lambda      : List (Nat × Bytes)           -- (to ∈ p_out, bytes) from the evaluator
  rows        : Array Row
  results     : List (Nat × List Bool)

def online (t : Taps) (c : Circuit) (e : Nat) (pOut : List Nat) (inputs : List (List Bool)) : Out :=
  let n := t.n; let m := c.maxReg; let x := inputsOf inputs
  let s := walk t c e x
  let inputAt (r : Nat) : Option (Nat × Nat) := match c.insts[r]? with | some ⟨_, .input p _⟩ => some (p, r) | _ => none   -- input registers are the first instructions (out = index)
  let parties := List.range n
  let rndIn (p r : Nat) : ShareL := (t.rnd.getD p #[]).getD r (zero n)                                     -- random_input_shares[w]
  let wireShares := parties.flatMap fun p => (parties.filter (· != p)).map fun q =>
    (p, q, encVec (encOpt (encPair encBool encU128)) (optList m fun r => match inputAt r with | some (owner, w) => if owner == q then some ((rndIn p w).bit, (rndIn p w).macs.getD q 0) else none | none => none))
  let maskedIn := parties.map fun p =>
    (p, encVec (encOpt encBool) (optList m fun r => match inputAt r with | some (owner, _) => if owner == p then s.masked.getD r none else none | none => none))
  let labels := (parties.filter (· != e)).map fun p =>
    (p, encVec (encOpt encU128) (optList m fun r => match s.masked.getD r none with | some mb => some ((t.inLab.getD p #[]).getD r 0 ^^^ sc mb (t.delta.getD p 0)) | none => none))
  let uniq := c.outputRegs.eraseDups
  let outShares := parties.flatMap fun p => (pOut.filter (· != p)).map fun q =>
    (p, q, encVec (encOpt (encPair encBool encU128)) (optList m fun r => if uniq.contains r then let sh := (s.sh.getD p #[]).getD r (zero n); some (sh.bit, sh.macs.getD q 0) else none))
  let lambda := (pOut.filter (· != e)).map fun q =>
    (q, encVec (encOpt (encPair encBool encU128)) (optList m fun r => if uniq.contains r then some (s.val.getD r false, (s.lev.getD r #[]).getD q 0) else none))
  let opened (r : Nat) : Bool := parties.foldl (fun acc p => acc != ((s.sh.getD p #[]).getD r (zero n)).bit) (s.val.getD r false)
  let results := parties.map fun p => (p, if pOut.contains p then c.outputRegs.map opened else [])
  ⟨wireShares, maskedIn, labels, outShares, lambda, s.rows, results⟩

end PolytuneModel.Online
