/-! Register circuits as used by `polytune::mpc` (`garble_lang::register_circuit`). Import-free, executable. -/
namespace PolytuneModel

inductive Op
  | input (party idx : Nat)
  | xor (a b : Nat)
  | and (a b : Nat)
  | not (a : Nat)
deriving Repr, DecidableEq

structure Inst where
  out : Nat
  op  : Op
deriving Repr, DecidableEq

structure Circuit where
  inputRegs  : List Nat      -- number of input bits per party
  insts      : List Inst
  maxReg     : Nat           -- max_reg_count
  outputRegs : List Nat
  andOps     : Nat           -- the `and_ops` counter carried by the description
deriving Repr

/-- pointwise update of a total register file. -/
def upd {α} (f : Nat → α) (i : Nat) (v : α) : Nat → α := fun j => if j = i then v else f j

/-- private inputs: `x p k` = k-th input bit of party p (false outside the provided lists). -/
def inputsOf (inputs : List (List Bool)) (p k : Nat) : Bool := (inputs.getD p []).getD k false

/-- one instruction of the clear-text register machine (`Circuit::eval`). -/
def clearStep (x : Nat → Nat → Bool) (regs : Nat → Bool) (i : Inst) : Nat → Bool :=
  match i.op with
  | .input p k => upd regs i.out (x p k)
  | .xor a b   => upd regs i.out (regs a != regs b)
  | .and a b   => upd regs i.out (regs a && regs b)
  | .not a     => upd regs i.out (!regs a)

/-- clear-text evaluation: the specification every honest `mpc` run must meet (C01). -/
def Circuit.eval (c : Circuit) (inputs : List (List Bool)) : List Bool :=
  let regs := c.insts.foldl (clearStep (inputsOf inputs)) (fun _ => false)
  c.outputRegs.map regs

/-- executable counterpart over an `Array` register file (the closure-based `clearStep` is for proofs only:
    compiled, a chain of `upd` closures re-evaluates operands and is exponential in the circuit depth). -/
def clearStepA (x : Nat → Nat → Bool) (regs : Array Bool) (i : Inst) : Array Bool :=
  let v := match i.op with
    | .input p k => x p k
    | .xor a b   => (regs.getD a false != regs.getD b false)
    | .and a b   => (regs.getD a false && regs.getD b false)
    | .not a     => !regs.getD a false
  regs.setIfInBounds i.out v

def Circuit.evalA (c : Circuit) (inputs : List (List Bool)) : List Bool :=
  let regs := c.insts.foldl (clearStepA (inputsOf inputs)) (Array.replicate c.maxReg false)
  c.outputRegs.map (regs.getD · false)

def Circuit.numInputs (c : Circuit) : Nat := c.inputRegs.sum
def Circuit.numAnds (c : Circuit) : Nat := (c.insts.filter fun i => match i.op with | .and _ _ => true | _ => false).length

inductive CircuitError
  | emptyInputs | invalidInst (i : Nat) | emptyOutputs | invalidOutput (r : Nat)
  | invalidRegAccess (i r : Nat) | invalidInput (i : Nat)
deriving Repr, DecidableEq

/-- `Circuit::validate` of garble_lang 0.7.0-alpha.1 (MAX_GATES check omitted: sizes are unbounded here). -/
def Circuit.validate (c : Circuit) : Except CircuitError Unit := do
  let maxReg := c.maxReg - 1                                  -- saturating_sub(1)
  if c.inputRegs.all (· == 0) then throw .emptyInputs
  if c.outputRegs.isEmpty then throw .emptyOutputs
  for o in c.outputRegs do
    if o > maxReg then throw (.invalidOutput o)
  let mut set : Nat → Bool := fun _ => false
  let mut idx := 0
  for inst in c.insts do
    if inst.out > maxReg then throw (.invalidInst idx)
    match inst.op with
    | .input _ _ => if idx ≠ inst.out then throw (.invalidInput idx)
    | .xor x y | .and x y =>
      if x > maxReg || y > maxReg then throw (.invalidInst idx)
      if !set x then throw (.invalidRegAccess idx x)
      if !set y then throw (.invalidRegAccess idx x)          -- sic: the Rust reports `x` here as well
    | .not x =>
      if x > maxReg then throw (.invalidInst idx)
      if !set x then throw (.invalidRegAccess idx x)
    set := upd set inst.out true
    idx := idx + 1
  return ()

/-- What `mpc` needs beyond `validate`: the `Input` instructions are exactly the first `Σ input_regs`
    instructions, in range, and the `and_ops` counter is right. (C01's hypothesis; the gap to `validate` is C18.) -/
def Circuit.wf (c : Circuit) : Bool :=
  (match c.validate with | .ok _ => true | .error _ => false) &&
  c.andOps == c.numAnds && decide (c.numInputs ≤ c.insts.length) &&
  (c.insts.zipIdx.all fun (inst, i) =>
    match inst.op with
    | .input p k => i < c.numInputs && p < c.inputRegs.length && k < c.inputRegs.getD p 0
    | _ => c.numInputs ≤ i)

end PolytuneModel
