import PolytuneModel.Proto.Skeleton
/-! The communication skeleton as ONE list of global phases (public parameters only). In a phase, party `i` sends one message
    to `k` iff `link i k`. `patternP pb i k` — the per-pair (label, length) sequence compared with the wire — is a filter/map
    of this list, and the same list is the `Phased` instance of C12 (`Thm/C12phases`). Import-free, executable. -/
namespace PolytuneModel

structure Phase where
  label : String
  len   : Nat → Nat → Nat          -- bytes of the message from i to k
  link  : Nat → Nat → Bool

def allToAll (label : String) (len : Nat) : Phase := ⟨label, fun _ _ => len, fun i k => i != k⟩

def bvP (n : Nat) (phase : String) : List Phase :=
  if n ≤ 2 then [] else [allToAll ("broadcast " ++ phase) (8 + n + 16 * (n - 2))]

/-- one KOS session per unordered pair; `lowSends = true`: the party with the lower index is the KOS sender. -/
def kosSession (m : Nat) (lowSends : Bool) : List Phase :=
  let ncols := nextMultipleOf8 m + 128 + SSP
  let fromSender : Nat → Nat → Bool := fun i k => i != k && (if lowSends then i < k else k < i)
  let fromReceiver : Nat → Nat → Bool := fun i k => i != k && (if lowSends then k < i else i < k)
  [ ⟨"CO_OT_s", fun _ _ => 8 + 32, fromReceiver⟩,
    ⟨"CO_OT_r", fun _ _ => 8 + 128 * (8 + 32), fromSender⟩,
    ⟨"CO_OT_c0c1", fun _ _ => 8 + 128 * 32, fromReceiver⟩,
    ⟨"ALSZ_OT_setup", fun _ _ => 8 + 128 * (8 + ncols / 8), fromReceiver⟩,
    ⟨"KOS_OT_x_t0_t1", fun _ _ => 8 + 48, fromReceiver⟩,
    ⟨"KOS_OT_corr", fun _ _ => 8 + 16 * m, fromSender⟩ ]

def fashareP (n l : Nat) : List Phase :=
  let lprime := l + RHO + 3 * RHO
  kosSession lprime true ++ kosSession lprime false
  ++ [allToAll "fabitn" (8 + 3 * RHO * 17)] ++ bvP n "fabitn"
  ++ [allToAll "fashare comm" (8 + RHO * 96)] ++ bvP n "fashare comm"
  ++ [allToAll "fashare ver" (8 + RHO * (8 + 1 + 16 * (n - 1)))] ++ bvP n "fashare ver"
  ++ [allToAll "fashare di_bi" (8 + RHO * 16)] ++ bvP n "fashare di_bi"

def andBatchP (n L : Nat) : List Phase :=
  let b := bucketSize L
  let l' := L * b
  fashareP n (L * b * 3)
  ++ [allToAll "haand" (8 + 2 * l')]
  ++ [allToAll "flaand" (8 + 17 * l')] ++ bvP n "flaand"
  ++ [allToAll "flaand comm" (8 + 32 * l')] ++ bvP n "flaand comm"
  ++ [allToAll "flaand hash" (8 + 16 * l')] ++ bvP n "flaand hash"
  ++ [allToAll "dvalue" (8 + L * ((8 + (b - 1)) + (8 + 16 * (b - 1))))]
  ++ [allToAll "faand" (8 + 34 * L)]

def phases (pb : Pub) : List Phase :=
  let c := pb.circ; let n := pb.n; let e := pb.pEval
  let rowLen := 8 + ((1 + (8 + 16 * n) + 16) + 16)
  let toEval : Nat → Nat → Bool := fun i k => i != e && k == e
  let outLen := 8 + c.maxReg + 17 * uniqueOutputs c
  [allToAll "RNG comm" 40, allToAll "RNG ver" 40, allToAll "RNG comm" 40] ++ bvP n "RNG comm" ++ [allToAll "RNG ver" 40]
  ++ (chunkSizeIter (c.numInputs + c.andOps) (randomSharesBatchSize c)).flatMap (fashareP n)
  ++ (chunkSizeIter c.andOps (andShareBatchSize c)).flatMap (andBatchP n)
  ++ (chunkSizeIter c.andOps (andShareBatchSize c)).map (fun ch => ⟨"preprocessed gates", fun _ _ => 8 + ch * 4 * rowLen, toEval⟩)
  ++ [⟨"wire shares", fun _ k => 8 + c.maxReg + 17 * countInputsOf c k, fun i k => i != k⟩]
  ++ [⟨"masked inputs", fun i _ => 8 + c.maxReg + countInputsOf c i, fun i k => i != k⟩] ++ bvP n "masked inputs"
  ++ [⟨"labels", fun _ _ => 8 + c.maxReg + 16 * c.numInputs, toEval⟩]
  -- the output step is ONE phase: everybody sends to every output party, then the output parties receive. A party listed
  -- j+1 times in p_out gets j+1 copies (C18-b), hence one phase per multiplicity level; for duplicate-free p_out only j = 0 has links.
  ++ (List.range pb.pOut.length).map (fun j => ⟨"output wire shares", fun _ _ => outLen, fun i k => i != k && decide (j < pb.pOut.count k)⟩)
  ++ (List.range pb.pOut.length).map (fun j => ⟨"lambda", fun _ _ => outLen, fun i k => i != k && i == e && decide (j < pb.pOut.count k)⟩)

def patternP (pb : Pub) (i k : Nat) : List Msg :=
  ((phases pb).filter (·.link i k)).map fun ph => (ph.label, ph.len i k)

end PolytuneModel
