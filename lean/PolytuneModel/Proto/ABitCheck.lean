import PolytuneModel.Prim.Aes
/-! The consistency check of `fabitn` (Pi_aBit^n, step 3): every party broadcasts 3·RHO random linear combinations of its WHOLE bit
    string `x` (the `l` bits that become its shares followed by 3·RHO surplus bits), with public coefficient strings expanded by an
    AES-128 counter-mode generator from a shared seed: coefficient of `x[k]` in combination `j` = bit `k mod 128` (LSB first within
    each byte) of keystream block `j · ⌈l'/128⌉ + k / 128`. Import-free, executable; compared with the Boolean fields of the real
    `fabitn` messages (taps: the bit string and the seed). -/
namespace PolytuneModel.ABitCheck

def coeff (blockOf : Nat → Array UInt8) (blocksPerRow j k : Nat) : Bool :=
  let b := blockOf (j * blocksPerRow + k / 128)
  ((b.getD ((k % 128) / 8) 0).toNat >>> (k % 8)) % 2 == 1

/-- the `rows` combination bits of `x` under the coefficients expanded from `seed`. -/
def combos (seed : Array UInt8) (x : Array Bool) (rows : Nat) : List Bool :=
  let rk := Aes.expandKey seed
  let bpr := (x.size + 127) / 128
  (List.range rows).map fun j =>
    let blks := (Array.range bpr).map fun b => Aes.encryptWith rk (Aes.u128le (j * bpr + b))
    (List.range x.size).foldl (fun acc k => acc != (x.getD k false && coeff (fun c => blks.getD (c - j * bpr) #[]) bpr j k)) false

end PolytuneModel.ABitCheck
