import PolytuneModel.Lemmas.AndGate
/-! Receive side of `protocol.rs::output()` for one honest output party, with messages exactly as serialised:
    `Vec<Option<(bool, Mac)>>` from every other party. `skipMissing = true` is the pinned tree (a missing slot is
    silently skipped), `false` is the repaired handler. -/
deriving instance DecidableEq for Except

namespace PolytuneModel

inductive OutErr | invalidLength | missingOutputShare (r : Nat) | invalidOutputMac (r : Nat) | invalidOutputLabel (r : Nat)
deriving Repr, DecidableEq

/-- what the honest party `h` holds for one output register. -/
structure OwnOut where
  bit    : Bool          -- own mask share bit
  key    : Nat → V       -- own key for party p's share bit
  masked : Bool          -- masked value of the wire (own evaluation, or the checked `lambda` entry)

/-- fold over the other parties for ONE output register: check MAC, XOR the share bit. -/
def openReg (skipMissing : Bool) (Δh : V) (r : Nat) (own : OwnOut) :
    List (Nat × Option (Bool × V)) → Bool → Except OutErr Bool
  | [], acc => .ok acc
  | (_, none) :: rest, acc => if skipMissing then openReg skipMissing Δh r own rest acc else .error (.missingOutputShare r)
  | (p, some (b, mac)) :: rest, acc =>
      if mac ≠ own.key p ^^^ sc b Δh then .error (.invalidOutputMac r) else openReg skipMissing Δh r own rest (acc != b)

def openOutput (skipMissing : Bool) (Δh : V) (r : Nat) (own : OwnOut) (recvd : List (Nat × Option (Bool × V))) : Except OutErr Bool :=
  openReg skipMissing Δh r own recvd (own.masked != own.bit)

end PolytuneModel
