import PolytuneModel.Lemmas.AndGate
/-! `src/mpc/fpre.rs` — the (semi-)trusted dealer: what it sends to party `i`, as a function of the values it samples
    (`deltas[j]`, `bits[i]`, `keys[i][j]`).  Executable (the driver evaluates it on the values decoded from the wire). -/
namespace PolytuneModel

/-- the share for party `i` (both loops of `fpre`: the random shares and the AND shares are built by the same lines):
    `mac = keys[j][i] ^ (bits[i] & deltas[j])`, `key = keys[i][j]`, own slot `(Mac(0), Key(0))`. -/
def dealerShare (Δ : Nat → V) (bits : Nat → Bool) (keys : Nat → Nat → V) (i : Nat) : Share :=
  ⟨bits i, fun j => if i = j then 0 else keys j i ^^^ sc (bits i) (Δ j), fun j => if i = j then 0 else keys i j⟩

/-- the bit shares of an AND result `c`: all but the last are sampled, the last is `current_share != c`. -/
def dealerAndBit (n : Nat) (r : Nat → Bool) (c : Bool) (i : Nat) : Bool :=
  if i + 1 = n then (bsum (n - 1) r != c) else r i

end PolytuneModel
