import PolytuneModel.Prim.Chunk
/-! Model of `utils/file_or_mem_buf.rs`. Import-free and executable. -/
namespace PolytuneModel.Buf

/-- In-memory variant: `FileOrMemBuf::Memory { data }`. -/
abbrev Mem (α : Type) := List α

/-- Temp-file variant. `disk` = chunks already written through to the OS file (one bincode `Vec<T>` each),
    `wbuf` = chunks still sitting in the `BufWriter`, `pos` = the OS file offset **shared** by the writer
    and every reader clone of the `Arc<File>` (counted in chunks). -/
structure File (α : Type) where
  disk : List (List α)
  wbuf : List (List α)
  pos  : Nat
deriving Repr

def File.empty {α} : File α := ⟨[], [], 0⟩

/-- a write at offset `pos` overwrites what is there and extends the file if needed. -/
def writeAt {α} (disk : List (List α)) (pos : Nat) (cs : List (List α)) : List (List α) :=
  disk.take pos ++ cs ++ disk.drop (pos + cs.length)

/-- `BufWriter::flush` (also what happens implicitly when the 8 KiB buffer fills). -/
def File.flush {α} (f : File α) : File α :=
  { disk := writeAt f.disk f.pos f.wbuf, wbuf := [], pos := f.pos + f.wbuf.length }

/-- `write_chunk` on the file variant: encode into the `BufWriter`. -/
def File.writeChunk {α} (f : File α) (c : List α) : File α := { f with wbuf := f.wbuf ++ [c] }

/-- `iter()` / `chunks()` preamble: flush, clone the file handle, rewind. -/
def File.openRead {α} (f : File α) : File α := { f.flush with pos := 0 }

/-- `Drop for Iter` / `Drop for ChunkIter`: seek to the end. -/
def File.closeRead {α} (f : File α) : File α := { f with pos := f.disk.length }

/-- abandoning a reader WITHOUT the drop impl: the offset stays wherever the buffered reader got to
    (`ahead` chunks were pulled into its buffer). Only used to show the drop impl is necessary. -/
def File.abandonRead {α} (f : File α) (ahead : Nat) : File α := { f with pos := min ahead f.disk.length }

inductive Op (α : Type)
  | append (c : List α)            -- write_chunk (the property restricts to non-empty chunks)
  | autoFlush                      -- BufWriter decided to flush (buffer full)
  | iterTake (k : Nat)             -- iter(), take k items, drop the iterator
  | chunksTake (s k : Nat)         -- chunks(s), take k chunks, drop the iterator
deriving Repr

inductive Obs (α : Type)
  | unit
  | items (l : List α)
  | chunks (l : List (List α))
deriving Repr, DecidableEq

def stepFile {α} (f : File α) : Op α → Obs α × File α
  | .append c => (.unit, f.writeChunk c)
  | .autoFlush => (.unit, f.flush)
  | .iterTake k => let g := f.openRead; (.items (g.disk.flatten.take k), g.closeRead)
  | .chunksTake _ k => let g := f.openRead; (.chunks (g.disk.take k), g.closeRead)

def stepMem {α} (m : Mem α) : Op α → Obs α × Mem α
  | .append c => (.unit, m ++ c)
  | .autoFlush => (.unit, m)
  | .iterTake k => (.items (m.take k), m)
  | .chunksTake s k => (.chunks ((chunksOf s m).take k), m)

def runFile {α} (f : File α) : List (Op α) → List (Obs α)
  | [] => []
  | o :: os => let r := stepFile f o; r.1 :: runFile r.2 os

def runMem {α} (m : Mem α) : List (Op α) → List (Obs α)
  | [] => []
  | o :: os => let r := stepMem m o; r.1 :: runMem r.2 os

/-- logical content of the file variant. -/
def File.abs {α} (f : File α) : List α := (f.disk ++ f.wbuf).flatten

end PolytuneModel.Buf
