import PolytuneModel.Proto.OnlineMsgs
import PolytuneModel.Proto.OutputH
/-! The receive side of `output()` for one honest party `h`, run on the BYTES it was handed (possibly forged), using
    `openReg` — the function the C02/C03 theorems are about — and the bincode decoder of `Prim/Bincode`. -/
namespace PolytuneModel.OutputTie
open PolytuneModel.Bincode

inductive Res | ok (bits : List Bool) | err (kind : String) (reg : Nat)
deriving Repr

def decShares : Dec (List (Option (Bool × Nat))) := decVec (decOpt (decPair decBool decU128))

/-- `h`'s output step: `recvd p` = the bytes of party p's `output wire shares` message; `lam` = the bytes of the evaluator's
    `lambda` message when `h` is a garbler. `skipMissing = true` is the pinned tree. -/
def outputOf (skipMissing : Bool) (t : Online.Taps) (circ : Circuit) (e h : Nat) (inputs : List (List Bool))
    (recvd : Nat → Option Bytes) (lam : Option Bytes) : Res :=
  let n := t.n; let m := circ.maxReg
  let c := OnlineMsgs.coinsOfTaps t circ.numInputs (inputsOf inputs)
  let (s, _, _) := OnlineMsgs.walk n e c circ.insts
  let uniq := circ.outputRegs.eraseDups.mergeSort (· ≤ ·)          -- BTreeSet iteration order
  -- decode what arrived (outer length is validated by recv_vec_from)
  let dec (b : Option Bytes) : Option (List (Option (Bool × Nat))) := match b with
    | none => none
    | some bs => match decShares bs with | .ok (l, []) => if l.length = m then some l else none | _ => none
  let others := (List.range n).filter (· != h)
  let msgs := others.map fun p => (p, dec (recvd p))
  if msgs.any (·.2.isNone) then .err "channel" 0 else
  -- masked values of the output wires: own evaluation, or the label-checked `lambda` entries
  let maskedOf : Except (String × Nat) (Nat → Bool) :=
    if h = e then .ok (fun r => s.val r) else
      match dec lam with
      | none => .error ("channel", 0)
      | some l =>
        match uniq.find? (fun r => match l.getD r none with
            | some (v, lab) => !(lab == (s.lab h r ^^^ sc v (c.Δ h)).toNat)
            | none => true) with
        | some r => .error ("InvalidOutputLabel", r)
        | none => .ok (fun r => match l.getD r none with | some (v, _) => v | none => false)
  match maskedOf with
  | .error (k, r) => .err k r
  | .ok masked =>
    -- party-major loop as in the Rust: for p in others { for out in uniq { … } }: the first failing (p, out) wins
    let failing := msgs.findSome? fun (p, l) => uniq.findSome? fun r =>
      let own : OwnOut := ⟨(s.sh h r).bit, fun q => (s.sh h r).key q, masked r⟩
      match openReg skipMissing (c.Δ h) r own [(p, ((l.getD []).getD r none).map fun (b, mac) => (b, OnlineMsgs.vOfNat mac))] false with
      | .error (.invalidOutputMac r') => some ("InvalidOutputMac", r')
      | .error (.missingOutputShare r') => some ("MissingOutputShare", r')
      | .error _ => some ("other", r)
      | .ok _ => none
    match failing with
    | some (k, r) => .err k r
    | none =>
      let bitOf (r : Nat) : Bool :=
        let own : OwnOut := ⟨(s.sh h r).bit, fun q => (s.sh h r).key q, masked r⟩
        match openOutput skipMissing (c.Δ h) r own (msgs.map fun (p, l) => (p, ((l.getD []).getD r none).map fun (b, mac) => (b, OnlineMsgs.vOfNat mac))) with
        | .ok v => v | .error _ => false
      .ok (circ.outputRegs.map bitOf)

end PolytuneModel.OutputTie
