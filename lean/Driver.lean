import PolytuneModel.Proto.Buf
import PolytuneModel.Proto.Circuit
import PolytuneModel.Proto.Skeleton
import PolytuneModel.Proto.Phases
import PolytuneModel.Server.Net
import PolytuneModel.Prim.Aes
import PolytuneModel.Prim.Clmul
import PolytuneModel.Prim.Blake3
import PolytuneModel.Proto.LaAnd
import PolytuneModel.Server.Step
import PolytuneModel.Proto.Online
import PolytuneModel.Proto.OnlineMsgs
import PolytuneModel.Proto.OutputTie
import PolytuneModel.Thm.C10
import PolytuneModel.Thm.C06C07
import PolytuneModel.Proto.Triples
import PolytuneModel.Proto.Validate
import PolytuneModel.Prim.AesRng
import PolytuneModel.Proto.ABitCheck
import PolytuneModel.Prim.TransposePortable
import PolytuneModel.Prim.TransposeAvx
import PolytuneModel.Http.Api
import PolytuneModel.Proto.Fpre
/-! `ptmodel`: one request per line on stdin, one response per line on stdout. -/
open PolytuneModel PolytuneModel.Buf

def parseNats (s : String) : Option (List Nat) :=
  if s = "-" then some [] else (s.splitOn ",").mapM (·.toNat?)

def showNats (l : List Nat) : String := if l.isEmpty then "-" else ",".intercalate (l.map toString)

def showObs : Obs Nat → String
  | .unit => "ok"
  | .items l => "items " ++ showNats l
  | .chunks cs => "chunks " ++ (if cs.isEmpty then "-" else "|".intercalate (cs.map showNats))


def hexDigit (c : Char) : Option Nat :=
  if '0' ≤ c ∧ c ≤ '9' then some (c.toNat - '0'.toNat) else if 'a' ≤ c ∧ c ≤ 'f' then some (c.toNat - 'a'.toNat + 10) else none
def parseHexBytes (s : String) : Option (Array UInt8) :=
  if s = "-" then some #[] else
  let rec go : List Char → Array UInt8 → Option (Array UInt8)
    | [], acc => some acc
    | a :: b :: rest, acc => do go rest (acc.push (UInt8.ofNat ((← hexDigit a) * 16 + (← hexDigit b))))
    | _, _ => none
  go s.toList #[]
def hexOf (a : Array UInt8) : String :=
  if a.isEmpty then "-" else String.ofList (a.toList.flatMap fun b => let d := "0123456789abcdef".toList; [d.getD (b.toNat / 16) '0', d.getD (b.toNat % 16) '0'])
def parseHexNat (s : String) : Option Nat := s.toList.foldlM (fun acc c => do pure (acc * 16 + (← hexDigit c))) 0
def natHex (n : Nat) : String := String.ofList ((Nat.toDigits 16 n))


def kindName (s : Server.St) : String :=
  if s.stopped then "Stopped" else match s.kind with
  | .init => "Init" | .awaitingValidation => "AwaitingValidation" | .validateRequested => "ValidateRequested" | .validated => "Validated"
  | .sendingConsts => "SendingConsts" | .sendingConstsCompleted => "SendingConstsCompleted" | .running => "Running" | .executing => "Executing"
def b01 (s : String) : Bool := s == "1"
def parseSrvCmd : List String → Option Server.Cmd
  | ["schedule", party, leader, n, hash, wt, out, oc, deps] => do
      pure (.schedule ⟨← party.toNat?, ← leader.toNat?, ← n.toNat?, ← hash.toNat?, b01 wt, b01 out, b01 oc, ← deps.toNat?⟩)
  | ["validate", hash, leader] => do pure (.validate ⟨← hash.toNat?, ← leader.toNat?⟩)
  | ["run", ext] => some (.run (b01 ext))
  | ["consts", sender, ne] => do pure (.consts (← sender.toNat?) (b01 ne))
  | ["ics"] => some .internalConstsSent
  | ["msg", sender] => do pure (.mpcMsg (← sender.toNat?))
  | ["stop"] => some .stop
  | ["cancel"] => some .cancel
  | ["leaderValidated", ok] => some (.leaderValidated (b01 ok))
  | ["leaderPermit"] => some .leaderPermit
  | ["leaderRunDone", ok] => some (.leaderRunDone (b01 ok))
  | ["compiled", ok] => some (.compiled (b01 ok))
  | _ => none
def effName : Server.Eff → String
  | .reply c ok e => "reply:" ++ c ++ ":" ++ (if ok then "ok" else e)
  | .replyDropped c => "dropped:" ++ c
  | .panic _ => "panic" | .stopActor => "stop" | .output w => "output:" ++ w | .permitReleased => "permit-" | .awaitPermit => "permit?"
  | .rpcValidateAll => "rpc:validate" | .rpcRunAll => "rpc:run" | .compile => "compile" | .selfSend c => "self:" ++ c
  | .spawnConstsTask => "spawn:consts" | .spawnMpcTask => "spawn:mpc"


def parseHexList (s : String) : Option (Array Nat) :=
  if s = "-" then some #[] else (s.splitOn ",").toArray.mapM parseHexNat
def sharesOfFlat (n : Nat) (v : Array Nat) : Array Online.ShareL :=
  let w := 1 + 2 * n
  (Array.range (v.size / w)).map fun k =>
    ⟨v.getD (k * w) 0 != 0, (Array.range n).map (fun j => v.getD (k * w + 1 + 2 * j) 0), (Array.range n).map (fun j => v.getD (k * w + 2 + 2 * j) 0)⟩
def hexB (b : List UInt8) : String := hexOf b.toArray

structure DState where
  file : File Nat := File.empty
  mem  : Mem Nat := []
  circ : Option Circuit := none
  srv  : List (Nat × Server.St) := []
  http : List (Nat × Http.Reg) := []      -- per HTTP server: its registry of handles
  taps : Online.Taps := ⟨0, #[], #[], #[], #[], #[]⟩

def two (s : String) (sep : String) : Option (Nat × Nat) :=
  match s.splitOn sep with
  | [a, b] => do pure ((← a.toNat?), (← b.toNat?))
  | _ => none

def parseInst (s : String) : Option Inst :=
  match s.splitOn ">" with
  | [lhs, out] => do
    let out ← out.toNat?
    let kind := (lhs.take 1).toString
    let args := (lhs.drop 1).toString
    if kind = "I" then let (p, k) ← two args "."; pure ⟨out, .input p k⟩
    else if kind = "X" then let (a, b) ← two args ","; pure ⟨out, .xor a b⟩
    else if kind = "A" then let (a, b) ← two args ","; pure ⟨out, .and a b⟩
    else if kind = "N" then let a ← args.toNat?; pure ⟨out, .not a⟩
    else none
  | _ => none

def kv (toks : List String) (k : String) : Option String :=
  toks.findSome? fun t => if t.startsWith (k ++ "=") then some (t.drop (k.length + 1)).toString else none

def parseCirc (toks : List String) : Option Circuit := do
  let ins ← parseNats (← kv toks "in")
  let mx ← (← kv toks "max").toNat?
  let outs ← parseNats (← kv toks "out")
  let ands ← (← kv toks "and").toNat?
  let is := (← kv toks "insts")
  let insts ← if is = "-" then some [] else (is.splitOn ";").mapM parseInst
  pure ⟨ins, insts, mx, outs, ands⟩

def parseBits (s : String) : List Bool := if s = "-" then [] else s.toList.map (· == '1')
def showBits (l : List Bool) : String := if l.isEmpty then "-" else String.ofList (l.map fun b => if b then '1' else '0')

def parseOp : List String → Option (Op Nat)
  | ["append", l] => (parseNats l).map .append
  | ["flush"] => some .autoFlush
  | ["iter", k] => k.toNat?.map .iterTake
  | ["chunks", s, k] => do let s ← s.toNat?; let k ← k.toNat?; pure (.chunksTake s k)
  | _ => none

def step (st : DState) (line : String) : DState × String :=
  match line.trimAscii.toString.splitOn " " with
  | ["buf", "reset"] => ({}, "ok")
  | "buf" :: "file" :: rest =>
    match parseOp rest with
    | some op => let r := stepFile st.file op; ({ st with file := r.2 }, showObs r.1)
    | none => (st, "bad-op")
  | "buf" :: "mem" :: rest =>
    match parseOp rest with
    | some (.chunksTake 0 _) => (st, "panic chunks0")          -- slice::chunks(0) panics in Rust
    | some op => let r := stepMem st.mem op; ({ st with mem := r.2 }, showObs r.1)
    | none => (st, "bad-op")
  | "circ" :: rest =>
    match parseCirc rest with
    | some c => ({ st with circ := some c }, "ok")
    | none => (st, "bad-op")
  | ["eval", inputs] =>
    match st.circ with
    | some c => (st, "out " ++ showBits (c.evalA ((inputs.splitOn "|").map parseBits)))
    | none => (st, "bad-op")
  | "pat" :: rest =>
    match st.circ, (kv rest "n").bind (·.toNat?), (kv rest "peval").bind (·.toNat?), (kv rest "pout").bind parseNats,
          (kv rest "from").bind (·.toNat?), (kv rest "to").bind (·.toNat?) with
    | some c, some n, some e, some po, some i, some k =>
      let ms := patternP ⟨c, n, e, po⟩ i k
      (st, "pat " ++ (if ms.isEmpty then "-" else "|".intercalate (ms.map fun (p, l) => p ++ ":" ++ toString l)))
    | _, _, _, _, _, _ => (st, "bad-op")
  | "rounds" :: rest =>
    match st.circ, (kv rest "n").bind (·.toNat?), (kv rest "peval").bind (·.toNat?), (kv rest "pout").bind parseNats,
          (kv rest "from").bind (·.toNat?), (kv rest "to").bind (·.toNat?) with
    | some c, some n, some e, some po, some i, some k =>
      let rs := ((phases ⟨c, n, e, po⟩).zipIdx.filter (fun (ph, _) => ph.link i k)).map (·.2)
      (st, "rounds " ++ (if rs.isEmpty then "-" else ",".intercalate (rs.map toString)))
    | _, _, _, _, _, _ => (st, "bad-op")
  | ["srvreport", n, leader, outs, consts, fuel] =>
    match n.toNat?, leader.toNat?, fuel.toNat? with
    | some n, some l, some f =>
      let su : Server.Setup := ⟨n, l, parseBits outs, parseBits consts⟩
      let r := Server.report Server.Cfg.current su f
      let r1 := Server.report Server.Cfg.current su (f + 1)
      (st, s!"srvreport reachable={r.1} terminal={r.2.1} bad={r.2.2.1} stuck={r.2.2.2} complete={r1.1 == r.1}")
    | _, _, _ => (st, "bad-op")
  | ["prim", "clmul", a, b] =>
    match parseHexNat a, parseHexNat b with
    | some a, some b => let (lo, hi) := clmul128Spec a b; (st, "clmul " ++ natHex lo ++ " " ++ natHex hi)
    | _, _ => (st, "bad-op")
  | ["prim", "transpose", rows, m] =>
    match rows.toNat?, parseHexBytes m with
    | some r, some m => (st, "transpose " ++ hexOf (transposeSpec m r))
    | _, _ => (st, "bad-op")
  | ["prim", "transposeP", rows, m] =>   -- the ALGORITHM of portable.rs (16x8 blocks, mask and shift), the subject of C20_transpose_portable
    match rows.toNat?, parseHexBytes m with
    | some r, some m => (st, "transpose " ++ hexOf (TransposeP.transposePortable m r))
    | _, _ => (st, "bad-op")
  | ["prim", "transposeAvx", rows, pat, m] =>   -- the model of avx2.rs (executable form, = the model of C20_transpose_avx by transposeAvxM_eq); `pat`: digits, choose i j = pat[(i + j) mod |pat|]
    match rows.toNat?, parseHexBytes m with
    | some r, some m =>
      let ds := pat.toList.map (fun c => c.toNat - '0'.toNat)
      (st, "transpose " ++ hexOf (Avx.Outer.transposeAvxM m r (fun i j => ds.getD ((i + j) % (max ds.length 1)) 0)))
    | _, _ => (st, "bad-op")
  | ["prim", "aes", k, x] =>
    match parseHexBytes k, parseHexBytes x with
    | some k, some x => (st, "aes " ++ hexOf (Aes.encrypt k x))
    | _, _ => (st, "bad-op")
  | ["prim", "cr", k, x] =>
    match parseHexBytes k, parseHexBytes x with
    | some k, some x => (st, "cr " ++ hexOf (Aes.crHash k x))
    | _, _ => (st, "bad-op")
  | ["prim", "tccr", k, t, x] =>
    match parseHexBytes k, parseHexBytes t, parseHexBytes x with
    | some k, some t, some x => (st, "tccr " ++ hexOf (Aes.tccrHash k t x))
    | _, _, _ => (st, "bad-op")
  | ["prim", "blake3", x] =>
    match parseHexBytes x with
    | some b => (st, "blake3 " ++ hexOf (Blake3.hash b))
    | none => (st, "bad-op")
  | ["abitcheck", seed, rows, xbits] =>
    -- the Boolean fields of a `fabitn` message: `rows` combinations of the tapped bit string under the coefficients expanded from the tapped seed  (C06 / C04)
    match parseHexBytes seed, rows.toNat? with
    | some s, some r => (st, "abitcheck " ++ showBits (ABitCheck.combos s (parseBits xbits).toArray r))
    | _, _ => (st, "bad-op")
  | ["prim", "ctrseq", seed, lens] =>
    -- a SEQUENCE of fill_bytes calls on one generator, through the stateful model of `AesRng` / `BlockRng` (C20_ctr_single_call is about its first call)
    match parseHexBytes seed, parseNats lens with
    | some s, some ns =>
      let rk := Aes.expandKey s
      let E : Nat → List UInt8 := fun c => (Aes.encryptWith rk (Aes.u128le c)).toList
      (st, "ctrseq " ++ "|".intercalate ((AesRng.fills E 8 (AesRng.fresh 8) ns).map fun o => if o.isEmpty then "-" else hexOf o.toArray))
    | _, _ => (st, "bad-op")
  | ["prim", "ctr", seed, n] =>
    match parseHexBytes seed, n.toNat? with
    | some s, some n => (st, "ctr " ++ hexOf (Aes.ctr s n))
    | _, _ => (st, "bad-op")
  | ["http", "reset"] => ({ st with http := [] }, "ok")
  | ["http", srv, "fin", id] =>
    match srv.toNat?, id.toNat? with
    | some srv, some id =>
      let cur := (st.http.find? (·.1 == srv)).map (·.2) |>.getD []
      ({ st with http := (srv, Http.finish cur id) :: st.http.filter (·.1 != srv) }, "ok")
    | _, _ => (st, "bad-op")
  | ["http", srv, "req", route, id, reply] =>   -- reply: what the handle returned IF it was reached (ok | err | stopped)
    let r : Option Http.Route := match route with | "schedule" => some .schedule | "validate" => some .validate | "run" => some .run | "consts" => some .consts | "msg" => some .msg | _ => none
    let rp : Option Http.Reply := match reply with | "ok" => some .ok | "err" => some .policyErr | "stopped" => some .stopped | _ => none
    match srv.toNat?, id.toNat?, r, rp with
    | some srv, some id, some r, some rp =>
      let cur := (st.http.find? (·.1 == srv)).map (·.2) |>.getD []
      let out := Http.serve cur r id rp
      let code := match out.2.2 with | .s200 => "200" | .s400 => "400" | .s404 => "404" | .s500 => "500"
      ({ st with http := (srv, out.1) :: st.http.filter (·.1 != srv) }, "reached=" ++ (if out.2.1 then "1" else "0") ++ " status=" ++ code)
    | _, _, _, _ => (st, "bad-op")
  | "srv" :: id :: rest =>
    match id.toNat? with
    | none => (st, "bad-op")
    | some id =>
      if rest = ["reset"] then ({ st with srv := (id, {}) :: st.srv.filter (·.1 != id) }, "kind=Init")
      else match parseSrvCmd rest with
        | none => (st, "bad-op")
        | some c =>
          let cur := (st.srv.find? (·.1 == id)).map (·.2) |>.getD {}
          let r := Server.step Server.Cfg.current cur c
          ({ st with srv := (id, r.1) :: st.srv.filter (·.1 != id) }, "kind=" ++ kindName r.1 ++ " gen=" ++ toString r.1.chanGen ++ " eff=" ++ ",".intercalate (r.2.map effName))
  | ["tap", "reset", n] =>
    match n.toNat? with
    | some n => ({ st with taps := ⟨n, Array.replicate n 0, Array.replicate n #[], Array.replicate n #[], Array.replicate n #[], Array.replicate n #[]⟩ }, "ok")
    | none => (st, "bad-op")
  | ["tap", kind, p, vals] =>
    match p.toNat?, parseHexList vals with
    | some p, some v =>
      let t := st.taps
      let t' : Option Online.Taps := match kind with
        | "delta" => some { t with delta := t.delta.setIfInBounds p (v.getD 0 0) }
        | "rnd" => some { t with rnd := t.rnd.setIfInBounds p (sharesOfFlat t.n v) }
        | "ab" => some { t with ab := t.ab.setIfInBounds p (sharesOfFlat t.n v) }
        | "inlab" => some { t with inLab := t.inLab.setIfInBounds p v }
        | "gatelab" => some { t with gateLab := t.gateLab.setIfInBounds p v }
        | _ => none
      match t' with | some t' => ({ st with taps := t' }, "ok") | none => (st, "bad-op")
    | _, _ => (st, "bad-op")
  | ["combine", n, party, flat, dd] =>
    -- flat = six shares of one party (x1 y1 z1 x2 y2 z2), each [bit, mac_0, key_0, …]; result = x, y, z of that party (C10's combineX / combineZ)
    match n.toNat?, party.toNat?, parseHexList flat with
    | some n, some _p, some v =>
      let sh := (sharesOfFlat n v).map OnlineMsgs.shareOfL
      let get (k : Nat) : Share := sh.getD k Share.zero
      let fam (k : Nat) : Nat → Share := fun _ => get k
      let x := combineX (fam 0) (fam 3) 0
      let z := combineZ (fam 2) (fam 5) (fam 3) (dd == "1") 0
      let showS (s : Share) : String := ",".intercalate ((if s.bit then "1" else "0") :: (List.range n).flatMap fun j => [natHex (s.mac j).toNat, natHex (s.key j).toNat])
      (st, "combine " ++ showS x ++ " " ++ showS (get 1) ++ " " ++ showS z)
    | _, _, _ => (st, "bad-op")
  | ["fpre", n, deltas, bits, keys] =>
    -- the dealer's share for every party from what it sampled: deltas[j], bits[i] (0/1 string), keys[i][j] flattened row by row; answer: per party `bit,mac_0,key_0,…`
    match n.toNat?, parseHexList deltas, parseHexList keys with
    | some n, some ds, some ks =>
      let bs := bits.toList.map (· == '1')
      let sh (i : Nat) : Share := dealerShare (fun j => BitVec.ofNat 128 (ds.getD j 0)) (fun i => bs.getD i false) (fun a b => BitVec.ofNat 128 (ks.getD (a * n + b) 0)) i
      let showS (s : Share) : String := ",".intercalate ((if s.bit then "1" else "0") :: (List.range n).flatMap fun j => [natHex (s.mac j).toNat, natHex (s.key j).toNat])
      (st, "fpre " ++ " ".intercalate ((List.range n).map fun i => showS (sh i)))
    | _, _, _ => (st, "bad-op")
  | ["fpreand", n, rbits, c] =>
    match n.toNat? with
    | some n => let rs := rbits.toList.map (· == '1'); (st, "fpreand " ++ String.ofList ((List.range n).map fun i => if dealerAndBit n (fun k => rs.getD k false) (c == "1") i then '1' else '0'))
    | none => (st, "bad-op")
  | ["combinebucket", n, b, flat, dbits] =>
    -- flat = 3·b shares of one party (x_0 y_0 z_0 x_1 y_1 z_1 …); dbits = the b-1 public d-values; result = `combineBucket` of C10_bucket
    match n.toNat?, b.toNat?, parseHexList flat with
    | some n, some b, some v =>
      let sh := (sharesOfFlat n v).map OnlineMsgs.shareOfL
      let fam (k : Nat) : Nat → Share := fun _ => sh.getD k Share.zero
      let ds := parseBits dbits
      if b = 0 ∨ sh.size ≠ 3 * b ∨ ds.length ≠ b - 1 then (st, "bad-op") else
      let rest := (List.range (b - 1)).map fun k => ((fam (3 * (k + 1)), fam (3 * (k + 1) + 1), fam (3 * (k + 1) + 2)), ds.getD k false)
      let (x, y, z) := combineBucket (fam 0, fam 1, fam 2) rest
      let showS (s : Share) : String := ",".intercalate ((if s.bit then "1" else "0") :: (List.range n).flatMap fun j => [natHex (s.mac j).toNat, natHex (s.key j).toNat])
      (st, "combinebucket " ++ showS (x 0) ++ " " ++ showS (y 0) ++ " " ++ showS (z 0))
    | _, _, _ => (st, "bad-op")
  | ["opened", delta, keys, claimed] =>
    -- C07's `opened`: what a party reveals in the third aShare round, from its keys, its global key and the CLAIMED bits of the peers
    match parseHexNat delta, parseHexList keys with
    | some dl, some ks =>
      let cl := parseBits claimed
      (st, "opened " ++ natHex (openedD ks.size (fun k => OnlineMsgs.vOfNat (ks.getD k 0)) (OnlineMsgs.vOfNat dl) (fun k => cl.getD k false)).toNat)
    | _, _ => (st, "bad-op")
  | "triples" :: rest =>
    match (kv rest "n").bind (·.toNat?), (kv rest "l").bind (·.toNat?), (kv rest "b").bind (·.toNat?), (kv rest "perm").bind parseHexList with
    | some n, some l, some b, some perm =>
      let get (pre : String) : Array (Array Online.ShareL) := (Array.range n).map fun p => match (kv rest (pre ++ toString p)).bind parseHexList with | some v => sharesOfFlat n v | none => #[]
      let o := Triples.run ⟨n, l, b, get "xyz", get "z", perm, get "ab"⟩
      let toks := o.dvalue.map (fun (p, k, by_) => s!"dv:{p}:{k}:{hexB by_}") ++ o.beaver.map (fun (p, k, by_) => s!"bv:{p}:{k}:{hexB by_}")
        ++ o.ands.map (fun (p, shs) => s!"and:{p}:" ++ ",".intercalate (shs.flatMap fun (bit, macs, keys) => (if bit then "1" else "0") :: (List.range n).flatMap fun j => [natHex (macs.getD j 0), natHex (keys.getD j 0)]))
      (st, "triples " ++ " ".intercalate toks)
    | _, _, _, _ => (st, "bad-op")
  | "laand" :: rest =>
    match (kv rest "n").bind (·.toNat?), (kv rest "lp").bind (·.toNat?), (kv rest "delta").bind parseHexList with
    | some n, some lp, some delta =>
      let xyz : Array (Array Online.ShareL) := (Array.range n).map fun p => match (kv rest s!"xyz{p}").bind parseHexList with | some v => sharesOfFlat n v | none => #[]
      let s : Array (Array (Array Bool)) := (Array.range n).map fun p => (Array.range n).map fun j => match kv rest s!"s{p}_{j}" with | some b => (parseBits b).toArray | none => #[]
      let o := LaAnd.run ⟨n, lp, delta, xyz, s⟩
      let msg (tag : String) (l : List (Nat × Nat × Bincode.Bytes)) : List String := l.map fun ((p, k, by_) : Nat × Nat × Bincode.Bytes) => s!"{tag}:{p}:{k}:{hexB by_}"
      let toks := msg "ha" o.haand ++ msg "fl" o.flaand ++ msg "cm" o.comm ++ msg "hs" o.hash
        ++ o.z.map (fun (p, shs) => s!"z:{p}:" ++ ",".intercalate (shs.flatMap fun ((bit, macs, keys) : Bool × List Nat × List Nat) => (if bit then "1" else "0") :: (List.range n).flatMap fun j => [natHex (macs.getD j 0), natHex (keys.getD j 0)]))
        ++ [s!"xorh:{if o.xorH.all (· == 0) then 0 else 1}"]
      (st, "laand " ++ " ".intercalate toks)
    | _, _, _ => (st, "bad-op")
  | "openout" :: rest =>
    match st.circ, (kv rest "h").bind (·.toNat?), (kv rest "peval").bind (·.toNat?), kv rest "inputs", kv rest "skip" with
    | some c, some h, some e, some inp, some skip =>
      let recvd (p : Nat) : Option Bincode.Bytes := ((kv rest s!"from{p}").bind parseHexBytes).map (·.toList)
      let lam : Option Bincode.Bytes := ((kv rest "lam").bind parseHexBytes).map (·.toList)
      match OutputTie.outputOf (skip == "1") st.taps c e h ((inp.splitOn "|").map parseBits) recvd lam with
      | .ok bits => (st, "ok " ++ showBits bits)
      | .err k r => (st, s!"err {k} {r}")
    | _, _, _, _, _ => (st, "bad-op")
  | ["chunkiter", total, chunk] =>
    -- the code's own `chunk_size_iter` (translator output)  (C01 / C19)
    match total.toNat?, chunk.toNat? with
    | some t, some c => (st, "chunkiter " ++ showNats (Gen.chunkSizeIter t c))
    | _, _ => (st, "bad-op")
  | "vargs" :: rest =>
    -- `protocol.rs::validate` on (own index, input length, evaluator, output list) for the current circuit  (C18)
    match st.circ, (kv rest "pown").bind (·.toNat?), (kv rest "len").bind (·.toNat?), (kv rest "peval").bind (·.toNat?), (kv rest "pout").bind parseNats with
    | some c, some o, some l, some e, some po => (st, match validateArgs c o l e po with | .ok _ => "ok" | .error err => "err " ++ err.cls)
    | _, _, _, _, _ => (st, "bad-op")
  | which :: rest@(_ :: _) =>
    if which != "online" && which != "online2" then (st, "bad-op") else
    let proofModel := which == "online2"
    match st.circ, (kv rest "peval").bind (·.toNat?), (kv rest "pout").bind parseNats, kv rest "inputs" with
    | some c, some e, some po, some inp =>
      let o := if proofModel then OnlineMsgs.online st.taps c e po ((inp.splitOn "|").map parseBits) else Online.online st.taps c e po ((inp.splitOn "|").map parseBits)
      let toks : List String :=
        o.wireShares.map (fun (p, q, b) => s!"ws:{p}:{q}:{hexB b}") ++ o.maskedIn.map (fun (p, b) => s!"mi:{p}:{hexB b}") ++ o.labels.map (fun (p, b) => s!"lb:{p}:{hexB b}")
        ++ o.outShares.map (fun (p, q, b) => s!"ow:{p}:{q}:{hexB b}") ++ o.lambda.map (fun (q, b) => s!"lm:{q}:{hexB b}")
        ++ o.rows.toList.map (fun r => s!"row:{r.garbler}:{r.w}:{r.i}:{natHex r.keyX}:{natHex r.keyY}:{hexB r.plain}")
        ++ o.results.map (fun (p, bits) => s!"res:{p}:{showBits bits}")
      (st, "online " ++ " ".intercalate toks)
    | _, _, _, _ => (st, "bad-op")
  | ["validate"] =>
    match st.circ with
    | some c => (st, match c.validate with | .ok _ => "valid" | .error e => "invalid " ++ (reprStr e))
    | none => (st, "bad-op")
  | ["wf"] =>
    match st.circ with
    | some c => (st, if c.wf then "wf" else "not-wf")
    | none => (st, "bad-op")
  | _ => (st, "bad-op")

partial def loop (h : IO.FS.Stream) (out : IO.FS.Stream) (st : DState) : IO Unit := do
  let line ← h.getLine
  if line.isEmpty then return ()
  let (st', resp) := step st line
  out.putStrLn resp
  out.flush
  loop h out st'

def main : IO Unit := do
  loop (← IO.getStdin) (← IO.getStdout) {}
