import PolytuneModel.Prim.Chunk
import PolytuneModel.Proto.Buf
import PolytuneModel.Proto.Circuit
import PolytuneModel.Proto.Skeleton
import PolytuneModel.Server.Step
import PolytuneModel.Proto.Online
import PolytuneModel.Proto.OnlineMsgs
import PolytuneModel.Proto.OutputTie
